//! C18 scenarios, each run in its own child process by the orchestrator (a stack overflow aborts the
//! process). `stack <scenario> <n> [thread]`: `thread` runs the scenario on a 2 MiB thread.
//! Prints `DONE <scenario> <n> depths=<min>..<max>` on success; keys record the stack depth at which
//! they are dropped so that the teardown's stack use is observable, not only its survival.

use geo_booleanop::boolean::BooleanOp;
use geo_booleanop::splay::{SplaySet, SplayTree};
use geo_types::{Coord, LineString, MultiPolygon, Polygon};
use std::cell::Cell;
use std::cmp::Ordering;

thread_local! {
    static BASE: Cell<usize> = Cell::new(0);
    static MIN_D: Cell<usize> = Cell::new(usize::MAX);
    static MAX_D: Cell<usize> = Cell::new(0);
    static LAST: Cell<i64> = Cell::new(i64::MIN);
    static ASC: Cell<bool> = Cell::new(true);
    static DROPS: Cell<u64> = Cell::new(0);
}

fn reset_order() {
    LAST.with(|l| l.set(i64::MIN));
    ASC.with(|a| a.set(true));
    DROPS.with(|d| d.set(0));
}

struct Key(i64);
impl Drop for Key {
    #[inline(never)]
    fn drop(&mut self) {
        let marker = 0u8;
        let here = &marker as *const u8 as usize;
        let d = BASE.with(|b| b.get()).saturating_sub(here);
        MIN_D.with(|m| m.set(m.get().min(d)));
        MAX_D.with(|m| m.set(m.get().max(d)));
        if self.0 < LAST.with(|l| l.get()) {
            ASC.with(|a| a.set(false));
        }
        LAST.with(|l| l.set(self.0));
        DROPS.with(|d| d.set(d.get() + 1));
    }
}

fn cmp_key(a: &Key, b: &Key) -> Ordering {
    a.0.cmp(&b.0)
}

fn order(kind: &str, n: i64) -> Vec<i64> {
    match kind {
        "mono" => (0..n).collect(),
        "rev" => (0..n).rev().collect(),
        "zigzag" => (0..n).map(|i| if i % 2 == 0 { i / 2 } else { n - 1 - i / 2 }).collect(),
        // a left link that carries a deep right subtree: descending keys, then one key above all
        "revtop" => (0..n - 1).rev().chain(std::iter::once(n)).collect(),
        // a right link that carries a deep left subtree
        "monobot" => (1..n).chain(std::iter::once(0)).collect(),
        // blocks of ascending runs in descending block order: mixed left / right spines
        "blocks" => {
            let b = 1 + (n as f64).sqrt() as i64;
            let mut v = Vec::new();
            let mut hi = n;
            while hi > 0 {
                let lo = (hi - b).max(0);
                v.extend(lo..hi);
                hi = lo;
            }
            v
        }
        _ => {
            let mut s: u64 = 0x9e3779b97f4a7c15;
            (0..n)
                .map(|_| {
                    s ^= s << 13;
                    s ^= s >> 7;
                    s ^= s << 17;
                    (s % (4 * n as u64 + 1)) as i64
                })
                .collect()
        }
    }
}

/// a comb whose teeth tips move right as they go down: the tips enter the sweep line in DEcreasing
/// sweep-line order, which builds a chain of right children in the splay tree
pub fn comb_desc(n: usize) -> Polygon<f64> {
    let mut pts = Vec::new();
    let h = n as f64;
    pts.push(Coord { x: 1000.0, y: h + 1.0 });
    for i in 0..n {
        let y = h - i as f64;
        pts.push(Coord { x: 1.0 + (i as f64) * 1e-3, y: y + 0.5 });
        pts.push(Coord { x: 900.0, y: y + 0.1 });
    }
    pts.push(Coord { x: 1000.0, y: -1.0 });
    pts.push(Coord { x: 1000.0, y: h + 1.0 });
    Polygon::new(LineString(pts), vec![])
}

pub fn comb(n: usize, x0: f64) -> Polygon<f64> {
    // n teeth: a comb whose teeth all start at x0 and extend to the right: many segments on the sweep line
    let mut pts = Vec::new();
    pts.push(Coord { x: x0, y: 0.0 });
    for i in 0..n {
        let y = i as f64;
        pts.push(Coord { x: x0 + 10.0, y: y + 0.1 });
        pts.push(Coord { x: x0 + 1.0, y: y + 0.5 });
    }
    pts.push(Coord { x: x0 + 10.0, y: n as f64 });
    pts.push(Coord { x: x0, y: n as f64 });
    pts.push(Coord { x: x0, y: 0.0 });
    Polygon::new(LineString(pts), vec![])
}

fn ring_area2(r: &LineString<f64>) -> f64 {
    let mut s = 0.0;
    for w in r.0.windows(2) {
        s += w[0].x * w[1].y - w[1].x * w[0].y;
    }
    s
}

/// closed-form checks on the result of a large operation: every ring is closed, every vertex is a vertex of
/// an operand or one of the listed crossing points, the numbers of polygons and of interior rings and the
/// area are the expected ones.  A failure ends the child process with a message starting `LARGE-CHECK`.
fn verify_large(
    name: &str,
    r: &MultiPolygon<f64>,
    inputs: &[&MultiPolygon<f64>],
    extra: &[(f64, f64)],
    area: f64,
    polys: usize,
    holes: usize,
) {
    use std::collections::HashSet;
    let key = |c: &Coord<f64>| ((c.x + 0.0).to_bits(), (c.y + 0.0).to_bits());
    let mut allowed: HashSet<(u64, u64)> = HashSet::new();
    for mp in inputs {
        for p in &mp.0 {
            for ring in std::iter::once(p.exterior()).chain(p.interiors().iter()) {
                for c in &ring.0 {
                    allowed.insert(key(c));
                }
            }
        }
    }
    for &(x, y) in extra {
        allowed.insert(key(&Coord { x, y }));
    }
    let fail = |msg: String| -> ! {
        println!("LARGE-CHECK {} {}", name, msg);
        std::process::exit(3)
    };
    let mut total = 0.0;
    let mut nholes = 0;
    for p in &r.0 {
        for (k, ring) in std::iter::once(p.exterior()).chain(p.interiors().iter()).enumerate() {
            if ring.0.len() < 4 {
                fail(format!("a_ring_of_the_result_has_{}_coordinates", ring.0.len()));
            }
            if ring.0.first() != ring.0.last() {
                fail("a_ring_of_the_result_is_not_closed".to_string());
            }
            for c in &ring.0 {
                if !allowed.contains(&key(c)) {
                    fail(format!("result_vertex_({},{})_is_neither_an_operand_vertex_nor_a_crossing", c.x, c.y));
                }
            }
            let a = ring_area2(ring).abs() / 2.0;
            if k == 0 {
                total += a
            } else {
                total -= a;
                nholes += 1
            }
        }
    }
    for p in &r.0 {
        let bb = |ring: &LineString<f64>| {
            let mut b = (f64::INFINITY, f64::INFINITY, f64::NEG_INFINITY, f64::NEG_INFINITY);
            for c in &ring.0 {
                b = (b.0.min(c.x), b.1.min(c.y), b.2.max(c.x), b.3.max(c.y));
            }
            b
        };
        let e = bb(p.exterior());
        for h in p.interiors() {
            let b = bb(h);
            if !(e.0 <= b.0 && e.1 <= b.1 && b.2 <= e.2 && b.3 <= e.3) {
                fail(format!(
                    "an_interior_ring_with_box_({},{})-({},{})_lies_outside_the_box_({},{})-({},{})_of_its_exterior_ring",
                    b.0, b.1, b.2, b.3, e.0, e.1, e.2, e.3
                ));
            }
        }
    }
    if r.0.len() != polys || nholes != holes {
        fail(format!("{}_polygons_with_{}_interior_rings,_expected_{}_and_{}", r.0.len(), nholes, polys, holes));
    }
    if (total - area).abs() > 1e-9 * area.abs().max(1.0) {
        fail(format!("area_{}_expected_{}", total, area));
    }
}

fn scenario(name: &str, n: i64) {
    let marker = 0u8;
    BASE.with(|b| b.set(&marker as *const u8 as usize));
    let (kind, what) = name.split_once('-').unwrap_or((name, "drop"));
    match what {
        "drop" | "clear" | "partial" | "full" | "fullback" | "query" | "remove" | "adaptors" => {
            let mut t = SplayTree::new(cmp_key);
            for k in order(kind, n) {
                t.insert(Key(k), ());
            }
            match what {
                "drop" => {
                    reset_order();
                    drop(t)
                }
                "clear" => {
                    reset_order();
                    t.clear();
                    assert_eq!(t.len(), 0);
                }
                "partial" => {
                    let mut it = t.into_iter();
                    it.next();
                    it.next_back();
                    it.next();
                    reset_order();
                    drop(it);
                }
                "remove" => {
                    // removals at both ends and in the middle of an un-rebalanced tree (seed C18-5)
                    let before = t.len();
                    let mut removed = 0usize;
                    for k in [n - 1, n - 2, 0, 1, n / 2, n / 2 + 1, n - 3, 2] {
                        if k >= 0 && k < n && t.remove(&Key(k)).is_some() {
                            removed += 1;
                        }
                    }
                    assert_eq!(t.len() + removed, before);
                    assert!(!t.contains(&Key(n - 1)) || n < 1);
                }
                "adaptors" => {
                    // the iterator adaptors std builds on `fold` / `try_fold` (seed C18-6)
                    let len = t.len();
                    let mut t2 = SplayTree::new(cmp_key);
                    for k in order(kind, n.min(400_000)) {
                        t2.insert(Key(k), ());
                    }
                    let len2 = t2.len();
                    assert_eq!(t.into_iter().count(), len);
                    let mut acc = 0i64;
                    t2.into_iter().for_each(|(k, _)| acc = acc.wrapping_add(k.0));
                    assert!(len2 == 0 || acc >= 0);
                    let mut s = SplaySet::new(cmp_key);
                    s.extend(order(kind, n.min(400_000)).into_iter().map(Key));
                    let last = s.into_iter().last();
                    assert!(last.is_some() || n == 0);
                }
                "fullback" => {
                    let mut c = 0usize;
                    let mut it = t.into_iter();
                    while it.next_back().is_some() {
                        c += 1;
                    }
                    assert!(c > 0);
                }
                "full" => {
                    let mut c = 0usize;
                    let mut it = t.into_iter();
                    loop {
                        // mixed direction is quadratic on a chain (each change of direction rotates the whole
                        // spine), so large trees are consumed from one end with a few switches only
                        let x = if (n <= 5000 && c % 3 == 2) || (c > 10 && c < 14) { it.next_back() } else { it.next() };
                        if x.is_none() {
                            break;
                        }
                        c += 1;
                    }
                    assert!(c > 0);
                }
                _ => {
                    for k in [0, n / 2, n - 1, n + 5] {
                        let _ = t.contains(&Key(k));
                        let _ = t.next(&Key(k));
                        let _ = t.prev(&Key(k));
                    }
                    let _ = t.min();
                    let _ = t.max();
                }
            }
        }
        "setdrop" => {
            let mut s = SplaySet::new(cmp_key);
            s.extend(order(kind, n).into_iter().map(Key));
            reset_order();
            drop(s);
        }
        "sweep" => {
            // subject: a comb with n teeth; clipping: a small box left of the teeth's right ends, so that
            // the intersection sweep breaks early (at x = 10 > 3) with ~2n segments still in the sweep line
            let a = MultiPolygon(vec![comb(n as usize, 0.0)]);
            let b = MultiPolygon(vec![Polygon::new(
                LineString(vec![
                    Coord { x: 2.0, y: -1.0 },
                    Coord { x: 3.0, y: -1.0 },
                    Coord { x: 3.0, y: 1.0 },
                    Coord { x: 2.0, y: 1.0 },
                    Coord { x: 2.0, y: -1.0 },
                ]),
                vec![],
            )]);
            let r = a.intersection(&b);
            assert!(!r.0.is_empty());
        }
        "union" | "bars" => {
            // every edge of the big operand ends up in the result: the in-result edges are linked from top to
            // bottom through `prev_in_result`, so whatever owns those links is released as one long chain
            let a = if what == "union" {
                MultiPolygon(vec![comb(n as usize, 0.0)])
            } else {
                MultiPolygon(
                    (0..n)
                        .map(|k| {
                            let y = 2.0 * k as f64;
                            Polygon::new(
                                LineString(vec![
                                    Coord { x: 0.0, y },
                                    Coord { x: 1.0, y },
                                    Coord { x: 1.0, y: y + 1.0 },
                                    Coord { x: 0.0, y: y + 1.0 },
                                    Coord { x: 0.0, y },
                                ]),
                                vec![],
                            )
                        })
                        .collect(),
                )
            };
            let b = MultiPolygon(vec![Polygon::new(
                LineString(vec![
                    Coord { x: 0.25, y: 0.25 },
                    Coord { x: 0.5, y: 0.25 },
                    Coord { x: 0.5, y: 0.5 },
                    Coord { x: 0.25, y: 0.5 },
                    Coord { x: 0.25, y: 0.25 },
                ]),
                vec![],
            )]);
            let r = a.union(&b);
            assert!(!r.0.is_empty());
            // b lies inside a: the union is a itself
            let area: f64 = a.0.iter().map(|p| ring_area2(p.exterior()).abs() / 2.0).sum();
            verify_large(name, &r, &[&a, &b], &[], area, a.0.len(), 0);
        }
        "holes" => {
            // one polygon with n holes stacked in one column, united with a rectangle at its side: every hole
            // lies directly above the previous one (chains of "the contour below me" as long as the column)
            let h = 3.0 * n as f64 + 1.0;
            let ext = LineString(vec![
                Coord { x: 0.0, y: 0.0 },
                Coord { x: 10.0, y: 0.0 },
                Coord { x: 10.0, y: h },
                Coord { x: 0.0, y: h },
                Coord { x: 0.0, y: 0.0 },
            ]);
            let holes: Vec<LineString<f64>> = (0..n)
                .map(|k| {
                    let y = 3.0 * k as f64 + 1.0;
                    LineString(vec![
                        Coord { x: 1.0, y },
                        Coord { x: 1.0, y: y + 1.0 },
                        Coord { x: 2.0, y: y + 1.0 },
                        Coord { x: 2.0, y },
                        Coord { x: 1.0, y },
                    ])
                })
                .collect();
            let a = MultiPolygon(vec![Polygon::new(ext, holes)]);
            let b = MultiPolygon(vec![Polygon::new(
                LineString(vec![
                    Coord { x: 9.0, y: 0.0 },
                    Coord { x: 12.0, y: 0.0 },
                    Coord { x: 12.0, y: 1.0 },
                    Coord { x: 9.0, y: 1.0 },
                    Coord { x: 9.0, y: 0.0 },
                ]),
                vec![],
            )]);
            let r = a.union(&b);
            assert_eq!(r.0.len(), 1);
            assert_eq!(r.0[0].interiors().len(), n as usize);
            verify_large(name, &r, &[&a, &b], &[(10.0, 1.0)], 10.0 * h - n as f64 + 2.0, 1, n as usize);
        }
        "frames" => {
            // n separate square frames (each a polygon with its own hole) in a row, united with a small square
            // in the gap after the first frame: 2n + 1 result rings, every hole belongs to its own frame
            let sqr = |x0: f64, y0: f64, x1: f64, y1: f64| {
                LineString(vec![
                    Coord { x: x0, y: y0 },
                    Coord { x: x1, y: y0 },
                    Coord { x: x1, y: y1 },
                    Coord { x: x0, y: y1 },
                    Coord { x: x0, y: y0 },
                ])
            };
            // in a row: the sweep meets shell, hole, shell, hole, ... so the ids of the traced contours alternate
            let a = MultiPolygon(
                (0..n)
                    .map(|k| {
                        let x = 4.0 * k as f64;
                        Polygon::new(sqr(x, 0.0, x + 3.0, 3.0), vec![sqr(x + 1.0, 1.0, x + 2.0, 2.0)])
                    })
                    .collect(),
            );
            let b = MultiPolygon(vec![Polygon::new(sqr(3.25, 1.0, 3.75, 2.0), vec![])]);
            let r = a.union(&b);
            verify_large(name, &r, &[&a, &b], &[], 8.0 * n as f64 + 0.5, n as usize + 1, n as usize);
        }
        "nest" => {
            // n concentric square frames (frame k lies in the hole of frame k + 1) united with a small square in the
            // innermost hole: ring-in-hole nesting as deep as n
            let sqr = |h: f64| {
                LineString(vec![
                    Coord { x: -h, y: -h },
                    Coord { x: h, y: -h },
                    Coord { x: h, y: h },
                    Coord { x: -h, y: h },
                    Coord { x: -h, y: -h },
                ])
            };
            let a = MultiPolygon(
                (1..=n)
                    .map(|k| Polygon::new(sqr(2.0 * k as f64 + 1.0), vec![sqr(2.0 * k as f64)]))
                    .collect(),
            );
            let b = MultiPolygon(vec![Polygon::new(sqr(1.0), vec![])]);
            let r = a.union(&b);
            let nf = n as f64;
            verify_large(name, &r, &[&a, &b], &[], 4.0 + 8.0 * nf * (nf + 1.0) + 4.0 * nf, n as usize + 1, n as usize);
        }
        "saw" => {
            // one long edge (the top side of a flat rectangle) crossed 2n times by a zigzag: it is divided again
            // and again, so whatever links the pieces of one edge forms a chain as long as the number of
            // crossings.  All crossing points are dyadic: (i +- 1/4, 1).
            let nn = n as usize;
            let w = n as f64;
            let rect = MultiPolygon(vec![Polygon::new(
                LineString(vec![
                    Coord { x: 0.0, y: 0.0 },
                    Coord { x: w, y: 0.0 },
                    Coord { x: w, y: 1.0 },
                    Coord { x: 0.0, y: 1.0 },
                    Coord { x: 0.0, y: 0.0 },
                ]),
                vec![],
            )]);
            let mut pts = Vec::with_capacity(2 * nn + 4);
            pts.push(Coord { x: 0.0, y: -1.0 });
            pts.push(Coord { x: w, y: -1.0 });
            pts.push(Coord { x: w, y: 0.5 });
            for i in (0..nn).rev() {
                pts.push(Coord { x: i as f64 + 0.5, y: 1.5 });
                pts.push(Coord { x: i as f64, y: 0.5 });
            }
            pts.push(Coord { x: 0.0, y: -1.0 });
            let saw = MultiPolygon(vec![Polygon::new(LineString(pts), vec![])]);
            let mut extra = Vec::with_capacity(2 * nn);
            for i in 0..=nn {
                extra.push((i as f64 - 0.25, 1.0));
                extra.push((i as f64 + 0.25, 1.0));
            }
            let r = rect.intersection(&saw);
            verify_large(name, &r, &[&rect, &saw], &extra, w - w / 8.0, 1, 0);
            let r = rect.union(&saw);
            // the saw's area is 2n (strip of height 1.5 plus n teeth of area 1/2); the union adds the n teeth tops
            // already counted and the part of the rectangle above the zigzag: area(saw) + n/8
            verify_large(name, &r, &[&rect, &saw], &extra, 2.0 * w + w / 8.0, 1, 0);
        }
        "mirrortime" => {
            // a comb whose rectangular teeth point left and whose tips move right from tooth to tooth, and
            // its mirror image at the x axis (teeth met bottom to top instead of top to bottom), each united
            // with a small triangle apart from it: the same amount of work, so the two running times may
            // differ by a constant factor but not by a factor that grows with the number of teeth
            let stair = |sy: f64| -> (MultiPolygon<f64>, MultiPolygon<f64>) {
                let nn = n as usize;
                let xs = n as f64 + 10.0;
                let top = n as f64 + 1.0;
                let mut pts = Vec::with_capacity(4 * nn + 5);
                pts.push(Coord { x: xs + 1.0, y: 0.0 });
                pts.push(Coord { x: xs + 1.0, y: sy * top });
                pts.push(Coord { x: xs, y: sy * top });
                for i in 0..nn {
                    let y = (nn - i) as f64;
                    let tip = i as f64;
                    pts.push(Coord { x: xs, y: sy * (y + 0.5) });
                    pts.push(Coord { x: tip, y: sy * (y + 0.5) });
                    pts.push(Coord { x: tip, y: sy * y });
                    pts.push(Coord { x: xs, y: sy * y });
                }
                pts.push(Coord { x: xs, y: 0.0 });
                pts.push(Coord { x: xs + 1.0, y: 0.0 });
                let a = MultiPolygon(vec![Polygon::new(LineString(pts), vec![])]);
                let b = MultiPolygon(vec![Polygon::new(
                    LineString(vec![
                        // inside the comb's bounding box (no bounding-box shortcut), below its lowest tooth
                        Coord { x: 0.0, y: 0.0 },
                        Coord { x: 0.5, y: 0.0 },
                        Coord { x: 0.0, y: sy * 0.5 },
                        Coord { x: 0.0, y: 0.0 },
                    ]),
                    vec![],
                )]);
                (a, b)
            };
            let mut times = [0.0f64; 2];
            for (k, sy) in [(0usize, -1.0f64), (1usize, 1.0f64)] {
                let (a, b) = stair(sy);
                let t0 = std::time::Instant::now();
                let r = a.union(&b);
                times[k] = t0.elapsed().as_secs_f64();
                let area: f64 = ring_area2(a.0[0].exterior()).abs() / 2.0 + 0.125;
                verify_large(name, &r, &[&a, &b], &[], area, 2, 0);
            }
            let (lo, hi) = if times[0] < times[1] { (times[0], times[1]) } else { (times[1], times[0]) };
            println!("TIMES mirror={:.3}s comb={:.3}s", times[0], times[1]);
            if hi > 25.0 * lo + 10.0 {
                println!(
                    "LARGE-CHECK {} one_orientation_of_the_same_input_takes_{:.0}_times_as_long_as_the_other_({:.2}s_vs_{:.2}s)",
                    name,
                    hi / lo.max(1e-9),
                    hi,
                    lo
                );
                std::process::exit(3);
            }
        }
        "sweepdesc" => {
            // tips at x = 1 .. 1 + n/1000 enter top to bottom; the clipping box ends at x = 800 < 900, so the
            // sweep breaks while every tooth edge is still on the sweep line
            let a = MultiPolygon(vec![comb_desc(n as usize)]);
            let b = MultiPolygon(vec![Polygon::new(
                LineString(vec![
                    Coord { x: 700.0, y: 0.2 },
                    Coord { x: 800.0, y: 0.2 },
                    Coord { x: 800.0, y: 0.4 },
                    Coord { x: 700.0, y: 0.4 },
                    Coord { x: 700.0, y: 0.2 },
                ]),
                vec![],
            )]);
            let _ = a.intersection(&b);
        }
        _ => panic!("unknown scenario"),
    }
    let (lo, hi) = (MIN_D.with(|m| m.get()), MAX_D.with(|m| m.get()));
    let order = if matches!(what, "drop" | "clear" | "partial" | "setdrop") {
        format!(
            " teardown_order={} teardown_drops={}",
            if ASC.with(|a| a.get()) { "ascending" } else { "mixed" },
            DROPS.with(|d| d.get())
        )
    } else {
        String::new()
    };
    if lo == usize::MAX {
        println!("DONE {} {} depths=none{}", name, n, order);
    } else {
        println!("DONE {} {} depths={}..{}{}", name, n, lo, hi, order);
    }
}

pub fn main(args: &[String]) {
    let name = args[0].clone();
    let n: i64 = args[1].parse().unwrap();
    if args.get(2).map(|s| s == "thread").unwrap_or(false) {
        std::thread::Builder::new()
            .stack_size(2 * 1024 * 1024)
            .spawn(move || scenario(&name, n))
            .unwrap()
            .join()
            .unwrap();
    } else {
        scenario(&name, n);
    }
}
